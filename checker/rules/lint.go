package rules

import (
	"bytes"
	"go/ast"
	"go/printer"
	"go/token"
	"go/types"
	"strings"
)

// IndexLenMismatch finds, inside `for i := range S`, comparisons of i with len(T)±c where T is not S.
type IndexLen struct {
	Range *ast.RangeStmt
	Cmp   *ast.BinaryExpr
	S, T  string
}

func IndexLenSites(info *types.Info, body ast.Node) (all []IndexLen) {
	ast.Inspect(body, func(n ast.Node) bool {
		rs, ok := n.(*ast.RangeStmt)
		if !ok || rs.Key == nil {
			return true
		}
		key := ObjOf(info, rs.Key)
		if key == nil {
			return true
		}
		s := types.ExprString(rs.X)
		// only direct body statements and their nested non-loop statements; nested ranges handle their own key
		ast.Inspect(rs.Body, func(m ast.Node) bool {
			be, ok := m.(*ast.BinaryExpr)
			if !ok {
				return true
			}
			switch be.Op {
			case token.EQL, token.NEQ, token.LSS, token.LEQ, token.GTR, token.GEQ:
			default:
				return true
			}
			var other ast.Expr
			if ObjOf(info, be.X) == key {
				other = be.Y
			} else if ObjOf(info, be.Y) == key {
				other = be.X
			} else {
				return true
			}
			// len(T) or len(T) ± c
			if b2, ok := ast.Unparen(other).(*ast.BinaryExpr); ok && (b2.Op == token.SUB || b2.Op == token.ADD) {
				other = b2.X
			}
			call, ok := ast.Unparen(other).(*ast.CallExpr)
			if !ok || !IsBuiltin(info, call, "len") || len(call.Args) != 1 {
				return true
			}
			all = append(all, IndexLen{Range: rs, Cmp: be, S: s, T: types.ExprString(call.Args[0])})
			return true
		})
		return true
	})
	return all
}

// NormalizeLoop renders a range loop's body with the loop variables renamed positionally and the ranged
// expression replaced by a hole, so that sibling loops over different carriers can be compared with each other.
func NormalizeLoop(fset *token.FileSet, info *types.Info, rs *ast.RangeStmt) string {
	rename := map[types.Object]string{}
	if o := ObjOf(info, rs.Key); o != nil {
		rename[o] = "KEY"
	}
	if rs.Value != nil {
		if o := ObjOf(info, rs.Value); o != nil {
			rename[o] = "VAL"
		}
	}
	// accumulators: variables declared outside the loop and assigned inside it, renamed positionally
	accN := 0
	ast.Inspect(rs.Body, func(n ast.Node) bool {
		if as, ok := n.(*ast.AssignStmt); ok && as.Tok != token.DEFINE {
			for _, l := range as.Lhs {
				if id, ok := l.(*ast.Ident); ok {
					if o := info.Uses[id]; o != nil && (o.Pos() < rs.Pos() || o.Pos() > rs.End()) {
						if _, seen := rename[o]; !seen {
							rename[o] = "ACC" + string(rune('0'+accN))
							accN++
						}
					}
				}
			}
		}
		return true
	})
	carrier := types.ExprString(rs.X)
	var buf bytes.Buffer
	_ = printer.Fprint(&buf, fset, rs.Body)
	out := buf.String()
	// textual rename is safe here: replace whole identifiers only
	ids := map[string]string{}
	ast.Inspect(rs.Body, func(n ast.Node) bool {
		if id, ok := n.(*ast.Ident); ok {
			if o := info.Uses[id]; o != nil {
				if r, ok := rename[o]; ok {
					ids[id.Name] = r
				}
			}
		}
		return true
	})
	out = strings.ReplaceAll(out, carrier, "CARRIER")
	out = replaceIdents(out, ids)
	return strings.Join(strings.Fields(out), " ")
}

func replaceIdents(src string, ids map[string]string) string {
	var sb strings.Builder
	i := 0
	isId := func(c byte) bool { return c == '_' || c >= 'a' && c <= 'z' || c >= 'A' && c <= 'Z' || c >= '0' && c <= '9' }
	for i < len(src) {
		if isId(src[i]) && (i == 0 || !isId(src[i-1])) {
			j := i
			for j < len(src) && isId(src[j]) {
				j++
			}
			w := src[i:j]
			if r, ok := ids[w]; ok && (i == 0 || src[i-1] != '.') {
				sb.WriteString(r)
			} else {
				sb.WriteString(w)
			}
			i = j
			continue
		}
		sb.WriteByte(src[i])
		i++
	}
	return sb.String()
}
