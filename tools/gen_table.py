#!/usr/bin/env python3
"""Dev-time: rewrite the rule-instance table of DESIGN.md §3 from /verif/evidence/*.json (run the quick tier first)."""
import json, glob, re, os
ROOT = os.path.dirname(os.path.dirname(os.path.abspath(__file__)))
rows = []
for f in sorted(glob.glob(os.path.join(ROOT, 'evidence', 'C??.json'))):
    d = json.load(open(f))
    cov = d['coverage']
    rules = dict(cov.get('instances_per_rule') or {})
    if not rules:
        for o in cov.get('obligations', []):
            rules[o['rule']] = rules.get(o['rule'], 0) + 1
    total = sum(rules.values())
    parts = sorted(rules.items(), key=lambda kv: (-kv[1], kv[0]))
    txt = ', '.join(('%s %d' % (k, v)) if v > 1 else k for k, v in parts)
    rows.append('| %s | %d | %s |' % (d['property_id'], total, txt))
p = os.path.join(ROOT, 'DESIGN.md')
s = open(p).read()
head = '| id | obligations | rules (instances; a bare name = 1) |\n|----|-------------|-------------------------------------|\n'
a = s.index('| id | obligations | rules (instances; a bare name = 1) |')
b = s.index('\n\n', a)
s = s[:a] + head + '\n'.join(rows) + s[b:]
open(p, 'w').write(s)
print('\n'.join(rows))
