#!/bin/bash
# Dev-time gate: rebuild the checker and run every check in both tiers on the current /repo; non-zero if anything is reported.
set -u
cd /verif/checker && GOFLAGS=-mod=mod GOPROXY=off GOSUMDB=off GOTOOLCHAIN=local GOWORK=off go build -o /verif/bin/vcheck ./cmd/vcheck || exit 2
cd /verif
rc=0
for tier in thorough quick; do
  out=$(bin/vcheck all --tier $tier 2>&1); r=$?
  echo "$out" | grep -v "^  rules\|KNOWN-FINDING" | grep -v "violated=0" | cut -c1-400
  echo "tier $tier: exit $r, $(echo "$out" | grep -c 'violated=0') of 20 clean"
  [ $r -ne 0 ] && rc=1
done
exit $rc
