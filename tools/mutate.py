#!/usr/bin/env python3
"""Dev-time both-ways test of the checker (not registered in MANIFEST).

For each mutant in tools/mutants.json: copy /repo to a scratch dir under /tmp,
apply one textual edit, make sure the tree still builds, run the property's
check against the copy and expect a VIOLATION naming the expected key.  The
scratch copy is removed afterwards.  Usage: [MUT_JOBS=n] tools/mutate.py [id-substring ...]
"""
import json, os, re, shutil, subprocess, sys, tempfile
from concurrent.futures import ThreadPoolExecutor
ROOT = os.path.dirname(os.path.dirname(os.path.abspath(__file__)))
ENV = dict(os.environ, GOFLAGS='-mod=mod', GOPROXY='off', GOSUMDB='off', GOTOOLCHAIN='local')
muts = json.load(open(os.path.join(ROOT, 'tools', 'mutants.json'))) + json.load(open(os.path.join(ROOT, 'tools', 'neutral.json')))
sel = sys.argv[1:]
JOBS = int(os.environ.get('MUT_JOBS', '1'))  # scratch copies checked in parallel (each check needs 1-3 GB)


def run_one(m):
    """Checks one mutant; returns (failures, report text)."""
    out = []
    d = tempfile.mkdtemp(prefix='mut_', dir='/tmp')
    try:
        subprocess.run(['rsync', '-a', '--exclude', '.git', '/repo/', d + '/'], check=True)
        if 'patch' in m:
            r0 = subprocess.run(['patch', '-p1', '-s', '-i', os.path.join(ROOT, m['patch'])], cwd=d, capture_output=True, text=True)
            if r0.returncode != 0:
                if not m.get('edits'):
                    return 1, 'MUTANT-STALE %s patch does not apply: %s' % (m['id'], r0.stdout[-200:])
                # later repairs touched the same lines: start again from the clean tree and apply the re-anchored edit
                subprocess.run(['rsync', '-a', '--delete', '--exclude', '.git', '/repo/', d + '/'], check=True)
            else:
                m = dict(m, edits=[])
        for e in m.get('edits', []):
            p = os.path.join(d, e['file'])
            s = open(p).read()
            if 'func' in e:
                # consistent rename of identifiers inside one function (a behaviour-preserving refactor)
                mm = re.search(r'^func [^\n]*\b' + re.escape(e['func']) + r'\(', s, re.M)
                if not mm:
                    return 1, 'MUTANT-STALE %s function not found %s' % (m['id'], e['func'])
                end = s.index('\n}\n', mm.start()) + 3
                body = s[mm.start():end]
                for a, b in e['rename'].items():
                    body = re.sub(r'(?<![A-Za-z0-9_.])' + re.escape(a) + r'(?![A-Za-z0-9_])', b, body)
                open(p, 'w').write(s[:mm.start()] + body + s[end:])
                continue
            if s.count(e['old']) < 1:
                return 1, 'MUTANT-STALE %s pattern not found in %s' % (m['id'], e['file'])
            s = s.replace(e['old'], e['new'], e.get('count', 1))
            open(p, 'w').write(s)
        b = subprocess.run(['go', 'build', './...'], cwd=d, env=ENV, capture_output=True, text=True)
        if b.returncode != 0:
            return 1, 'MUTANT-NOBUILD %s %s' % (m['id'], b.stderr[-400:])
        ev = os.path.join(d, '.evidence')
        r = subprocess.run([os.path.join(ROOT, 'bin', 'vcheck'), m['property'], '--tier', m.get('tier', 'quick')],
                           env=dict(ENV, VERIF_REPO=d, VERIF_EVIDENCE_DIR=ev), capture_output=True, text=True)
        if m.get('neutral'):
            # behaviour-preserving edit: every check must stay silent
            quiet = r.returncode == 0 and 'VIOLATION' not in r.stdout
            out.append(('QUIET ' if quiet else 'FALSE-ALARM ') + m['id'])
            if not quiet:
                out.append('\n'.join(l[:400] for l in r.stdout.splitlines() if 'VIOLATED' in l or 'UNDECIDED' in l or 'VIOLATION' in l)[:3000])
            return (0 if quiet else 1), '\n'.join(out)
        hit = r.returncode == 1 and 'VIOLATION property=' + m['property'] in r.stdout and m['expect'] in r.stdout
        out.append(('CAUGHT ' if hit else 'MISSED ') + m['id'])
        if not hit:
            out.append(r.stdout[-1500:] + ' ' + r.stderr[-500:])
        return (0 if hit else 1), '\n'.join(out)
    finally:
        shutil.rmtree(d, ignore_errors=True)


todo = [m for m in muts if not sel or any(s in m['id'] for s in sel)]
total = 0
with ThreadPoolExecutor(max_workers=JOBS) as ex:
    for f, text in ex.map(run_one, todo):
        total += f
        print(text, flush=True)
sys.exit(1 if total else 0)
