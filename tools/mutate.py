#!/usr/bin/env python3
"""Dev-time both-ways test of the checker (not registered in MANIFEST).

For each mutant in tools/mutants.json: copy /repo to a scratch dir under /tmp,
apply one textual edit, make sure the tree still builds, run the property's
check against the copy and expect a VIOLATION naming the expected key.  The
scratch copy is removed afterwards.  Usage: tools/mutate.py [id-substring ...]
"""
import json, os, shutil, subprocess, sys, tempfile
ROOT = os.path.dirname(os.path.dirname(os.path.abspath(__file__)))
ENV = dict(os.environ, GOFLAGS='-mod=mod', GOPROXY='off', GOSUMDB='off', GOTOOLCHAIN='local')
muts = json.load(open(os.path.join(ROOT, 'tools', 'mutants.json'))) + json.load(open(os.path.join(ROOT, 'tools', 'neutral.json')))
sel = sys.argv[1:]
fail = 0
for m in muts:
    if sel and not any(s in m['id'] for s in sel):
        continue
    d = tempfile.mkdtemp(prefix='mut_', dir='/tmp')
    try:
        subprocess.run(['rsync', '-a', '--exclude', '.git', '/repo/', d + '/'], check=True)
        if 'patch' in m:
            r0 = subprocess.run(['patch', '-p1', '-s', '-i', os.path.join(ROOT, m['patch'])], cwd=d, capture_output=True, text=True)
            if r0.returncode != 0:
                print('MUTANT-STALE', m['id'], 'patch does not apply:', r0.stdout[-200:]); fail += 1; continue
        for e in m.get('edits', []):
            p = os.path.join(d, e['file'])
            s = open(p).read()
            if 'func' in e:
                # consistent rename of identifiers inside one function (a behaviour-preserving refactor)
                import re
                mm = re.search(r'^func [^\n]*\b' + re.escape(e['func']) + r'\(', s, re.M)
                if not mm:
                    print('MUTANT-STALE', m['id'], 'function not found', e['func']); fail += 1; break
                end = s.index('\n}\n', mm.start()) + 3
                body = s[mm.start():end]
                for a, b in e['rename'].items():
                    body = re.sub(r'(?<![A-Za-z0-9_.])' + re.escape(a) + r'(?![A-Za-z0-9_])', b, body)
                open(p, 'w').write(s[:mm.start()] + body + s[end:])
                continue
            if s.count(e['old']) < 1:
                print('MUTANT-STALE', m['id'], 'pattern not found in', e['file']); fail += 1; break
            s = s.replace(e['old'], e['new'], e.get('count', 1))
            open(p, 'w').write(s)
        else:
            b = subprocess.run(['go', 'build', './...'], cwd=d, env=ENV, capture_output=True, text=True)
            if b.returncode != 0:
                print('MUTANT-NOBUILD', m['id'], b.stderr[-400:]); fail += 1; continue
            ev = os.path.join(d, '.evidence')
            r = subprocess.run([os.path.join(ROOT, 'bin', 'vcheck'), m['property'], '--tier', m.get('tier', 'quick')],
                               env=dict(ENV, VERIF_REPO=d, VERIF_EVIDENCE_DIR=ev), capture_output=True, text=True)
            if m.get('neutral'):
                # behaviour-preserving edit: every check must stay silent
                quiet = r.returncode == 0 and 'VIOLATION' not in r.stdout
                print(('QUIET ' if quiet else 'FALSE-ALARM ') + m['id'])
                if not quiet:
                    fail += 1
                    print('\n'.join(l[:400] for l in r.stdout.splitlines() if 'VIOLATED' in l or 'UNDECIDED' in l or 'VIOLATION' in l)[:3000])
                continue
            hit = r.returncode == 1 and 'VIOLATION property=' + m['property'] in r.stdout and m['expect'] in r.stdout
            print(('CAUGHT ' if hit else 'MISSED ') + m['id'])
            if not hit:
                fail += 1
                print(r.stdout[-1500:], r.stderr[-500:])
    finally:
        shutil.rmtree(d, ignore_errors=True)
sys.exit(1 if fail else 0)
