#!/bin/bash
# Dev-time: confirm a seeded change (demo passes on the clean tree, fails with the patch, tree builds and tests pass)
# and run the checker on it. Usage: tools/seed_eval.sh <Cxx> [seed-dir]
set -u
ID=$1; SD=${2:-/tmp/seed_$ID}
export GOFLAGS=-mod=mod GOPROXY=off GOSUMDB=off GOTOOLCHAIN=local
S=/tmp/sv_$ID${ROUND:-}; rm -rf $S; mkdir -p $S; rsync -a --exclude .git /repo/ $S/
echo "== demo on clean tree"; (cd $SD && bash ./run_demo.sh $S >/tmp/sv_$ID${ROUND:-}.clean.log 2>&1); echo "clean exit=$?"
(cd $S && git init -q . 2>/dev/null; patch -p1 -s < $SD/patch.diff) || { echo PATCH-FAILED; exit 2; }
echo "== build+tests with patch"; (cd $S && go build ./... && go test -count=1 ./... 2>&1 | grep -v "no test files" | grep -v "^ok" ; echo "build/test done")
echo "== demo with patch"; (cd $SD && bash ./run_demo.sh $S >/tmp/sv_$ID${ROUND:-}.patched.log 2>&1); echo "patched exit=$?"
echo "== checker"
PROPS=$(python3 -c "import json;print(' '.join(c['property_id'] for c in json.load(open('/verif/MANIFEST.json'))['checks']))")
[ -n "${ONLY_OWN:-}" ] && PROPS=$ID
for P in $PROPS; do
  out=$(VERIF_REPO=$S VERIF_EVIDENCE_DIR=$S/.ev /verif/bin/vcheck $P 2>&1); rc=$?
  if [ $rc -ne 0 ]; then echo "FLAGGED by $P:"; echo "$out" | grep -E "VIOLATED|UNDECIDED" | cut -c1-400 | head -5; fi
done
rm -rf $S
