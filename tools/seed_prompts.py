#!/usr/bin/env python3
"""Dev-time: write the prompt given to a seeding sub-agent (only the property text, its own scratch worktree, the
deliverable directory).  Usage: tools/seed_prompts.py <round> <out-dir> <Cxx> [Cxx ...]"""
import json, sys, os
ROOT = os.path.dirname(os.path.dirname(os.path.abspath(__file__)))
rnd, outdir, ids = sys.argv[1], sys.argv[2], sys.argv[3:]
props = {}
for l in open(os.path.join(ROOT, 'properties.jsonl')):
    d = json.loads(l)
    props[d['id']] = d
T = '''You are helping to evaluate how well a project's safety net protects one stated property. The project is cloudwego/thriftgo (a Thrift IDL compiler written in Go). You get your own scratch git worktree of it at {wt} (detached at the project's current HEAD). Work ONLY inside {wt} and inside your deliverable directory {out}; do not touch /repo, other directories under /tmp that are not yours, or anything else. There is no network.

Every shell call needs: export GOFLAGS=-mod=mod GOPROXY=off GOSUMDB=off GOTOOLCHAIN=local
(scratch Go modules that import the project need `replace github.com/cloudwego/thriftgo => <checkout>` in go.mod and a copy of the checkout's go.sum; github.com/apache/thrift v0.13.0 and github.com/cloudwego/gopkg are in the module cache.)

THE PROPERTY ({pid}: {title})
Statement: {statement}
Quantified over: {quant}
Why the existing tests cannot settle it: {why}
Code it is anchored in: {anchors}

YOUR TASK
Make ONE realistic change to the project's source in {wt} -- the kind of edit a well-meaning developer could make in a refactoring, optimisation or bug fix and that would pass review -- such that:
 1. the project still builds: `go build ./...` in {wt};
 2. the existing tests still pass: `go test -count=1 ./...` in {wt} (root module only);
 3. the property above is BROKEN for at least one input/history/configuration, and you can demonstrate it.
Prefer something subtle over something blatant: a helper that is slightly wrong for a boundary value, the second of two symmetric code paths, the interaction of two options, an ordering that only matters for some histories, an error that is dropped on one path only, a change in a less obvious file that the property also depends on. Do not merely delete a feature, and do not special-case a magic input. Keep the change small (usually under 30 changed lines) and leave a plausible comment if a developer would.

DELIVERABLES in {out} (create the directory):
 - patch.diff : `git -C {wt} diff` of your change (only source files of the project; no demo files inside the checkout);
 - run_demo.sh : usage `bash run_demo.sh <checkout-dir>`; it must exit 0 when <checkout-dir> is the unmodified project and non-zero (printing what went wrong) when your patch is applied there. It must build whatever it needs from <checkout-dir> into a temporary directory that it removes afterwards, must not write into <checkout-dir>, and must work offline with the exports above. Put any IDL files / Go drivers it needs next to it in {out};
 - meta.json : {{"property": "{pid}", "summary": one paragraph, "files_changed": [...], "why_tests_still_pass": "...", "exposing_input": "..."}}.
Verify all of it yourself: run the demo against {wt} with the change applied (must fail), then `git -C {wt} stash` or `git apply -R` to check it passes on the clean tree, then re-apply. Leave your change applied but UNCOMMITTED in {wt} when you finish, and leave no other files behind in {wt}.

While reading the code you may notice places where the UNMODIFIED project already violates the property (or obviously misbehaves). Do not fix them, but list each in your final answer with the input that shows it.

Final answer: the change (one paragraph), why the tests still pass, what input exposes it, where the deliverables are, and the list of pre-existing violations you noticed (if any).
'''
os.makedirs(outdir, exist_ok=True)
for pid in ids:
    d = props[pid]
    anchors = json.dumps(d['anchors'].get('mechanism', [])) + ' files: ' + ', '.join(d['anchors'].get('files', []))
    open(os.path.join(outdir, 'agent_prompt_%s.txt' % pid), 'w').write(T.format(
        wt='/tmp/wt%s_%s' % (rnd, pid), out='/tmp/seed%s_%s' % (rnd, pid), pid=pid, title=d['title'],
        statement=d['statement'], quant=d['quantifier']['text'], why=d['why_tests_cant'], anchors=anchors))
print('wrote', len(ids), 'prompts to', outdir)
