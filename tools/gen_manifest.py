#!/usr/bin/env python3
"""Regenerates /verif/MANIFEST.json from tools/manifest_src.json (claims) so the file always validates."""
import json, os
ROOT = os.path.dirname(os.path.dirname(os.path.abspath(__file__)))
src = json.load(open(os.path.join(ROOT, 'tools', 'manifest_src.json')))
props = [json.loads(l) for l in open(os.path.join(ROOT, 'properties.jsonl'))]
checks, na = [], []
for p in props:
    pid = p['id']
    c = src['claims'].get(pid)
    if c is None:
        na.append({"property_id": pid, "reason": src['not_applicable'].get(pid, "no static rule built yet for this property; not claimed")})
        continue
    checks.append({
        "property_id": pid,
        "quick_cmd": f"bin/vcheck {pid} --tier quick",
        "thorough_cmd": f"bin/vcheck {pid} --tier thorough",
        "evidence_file": f"/verif/evidence/{pid}.json",
        "replay_cmd_template": f"bin/vcheck --explain {{path}}",
        "engine": "vcheck",
        "level_claimed": {"category": "other", "text": c['text'], "design_ref": c.get('design_ref', 'DESIGN.md §4 ' + pid)},
        "level_note": c['note'],
        "technique": c['technique'] + "; the complete list of rules with their instance counts on the current tree is in the evidence file (coverage.instances_per_rule) and in DESIGN.md §3/§4",
    })
m = {
    "version": 1,
    "setup_cmd": "cd /verif/checker && GOFLAGS=-mod=mod GOPROXY=off GOSUMDB=off GOTOOLCHAIN=local GOWORK=off go build -o /verif/bin/vcheck ./cmd/vcheck",
    "hooks": {"guard": "verif", "enable": "no hooks: every check is a static analysis of /repo's working tree; the tag is reserved and unused",
              "baseline_off_cmd": "cd /repo && go test -vet=off -count=1 ./...", "source_commits": src.get('source_commits', []), "add_only": True},
    "engines": [{"name": "vcheck", "path": "checker/", "serves_properties": [c['property_id'] for c in checks],
                 "kind_free_text": "repository-specific static analyser: go/packages + go/types + go/ast + go/cfg + go/ssa + call graph over /repo, plus abstract rendering of the text/template bodies held in Go string constants"}],
    "checks": checks,
    "notes": src.get('notes', ''),
    "not_applicable": na,
}
json.dump(m, open(os.path.join(ROOT, 'MANIFEST.json'), 'w'), indent=1)
print(len(checks), 'claimed,', len(na), 'not applicable')
