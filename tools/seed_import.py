#!/usr/bin/env python3
"""Dev-time: copy a confirmed seed from /tmp/seed_<id> into /verif/seeded/<id>, stamp meta.json, register a SEED mutant.
Usage: tools/seed_import.py <Cxx> <expect-substring> <caught_by text>"""
import json, os, shutil, sys
pid, expect, caught = sys.argv[1], sys.argv[2], sys.argv[3]
src, dst = '/tmp/seed_' + pid, '/verif/seeded/' + pid
if os.path.exists(dst):
    shutil.rmtree(dst)
shutil.copytree(src, dst, ignore=shutil.ignore_patterns('go.sum', '*.log', 'bin', 'out', 'gen', '.git'))
mp = os.path.join(dst, 'meta.json')
meta = json.load(open(mp)) if os.path.exists(mp) else {"property": pid}
meta['confirmed_by_me'] = {
    "commands": ["tools/seed_eval.sh %s  (scratch copy of /repo: run_demo.sh exits 0 on the clean tree, patch applies, go build ./... and go test ./... pass, run_demo.sh exits non-zero with the patch)" % pid],
    "caught_by": caught,
}
json.dump(meta, open(mp, 'w'), indent=1)
mj = '/verif/tools/mutants.json'
muts = [m for m in json.load(open(mj)) if m['id'] != 'SEED-' + pid]
muts.append({"id": "SEED-" + pid, "property": pid, "expect": expect, "patch": "seeded/%s/patch.diff" % pid})
json.dump(muts, open(mj, 'w'), indent=1)
print('imported', pid)
