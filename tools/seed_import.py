#!/usr/bin/env python3
"""Dev-time: copy a confirmed seed from /tmp/seed_<id> into /verif/seeded/<id>, stamp meta.json, register a SEED mutant.
Usage: tools/seed_import.py <Cxx> <expect-substring> <caught_by text> [round]"""
import json, os, shutil, sys
pid, expect, caught = sys.argv[1], sys.argv[2], sys.argv[3]
rnd = sys.argv[4] if len(sys.argv) > 4 else ''          # '' for the first round, '2' for the second
name = pid + ('-' + rnd if rnd else '')
src, dst = '/tmp/seed' + rnd + '_' + pid, '/verif/seeded/' + name
if os.path.exists(dst):
    shutil.rmtree(dst)
shutil.copytree(src, dst, ignore=shutil.ignore_patterns('go.sum', '*.log', 'bin', 'out', 'gen', '.git'))
mp = os.path.join(dst, 'meta.json')
meta = json.load(open(mp)) if os.path.exists(mp) else {"property": pid}
meta['confirmed_by_me'] = {
    "commands": ["tools/seed_eval.sh %s [seed dir]  (scratch copy of /repo: run_demo.sh exits 0 on the clean tree, patch applies, go build ./... and go test ./... pass, run_demo.sh exits non-zero with the patch)" % pid],
    "caught_by": caught,
}
json.dump(meta, open(mp, 'w'), indent=1)
mj = '/verif/tools/mutants.json'
muts = [m for m in json.load(open(mj)) if m['id'] != 'SEED-' + name]
muts.append({"id": "SEED-" + name, "property": pid, "expect": expect, "patch": "seeded/%s/patch.diff" % name})
json.dump(muts, open(mj, 'w'), indent=1)
print('imported', name)
